import XzVerif.Model.Ring
import XzVerif.Model.Writer2
/-
  Model.Select — the part of the two match finders that decides what is proposed, given the candidate distances
  their search structures deliver: `hashTable.NextOp` (lzma/hashtable.go) and `binTree.match` / `binTree.NextOp`
  (lzma/bintree.go), at the level of the encoder dictionary's ring (Model/Ring.lean).  The candidate search itself
  (hash chains, binary tree) is a parameter: the lists of distances in the order the finders try them.
  Every candidate is verified against the ring (`DictLen` bound, one-byte quick reject, `buffer.matchLen`), which is
  what makes a proposal applicable whatever the search structures contain (Proofs/Select.lean).  Core-only.
-/
namespace Sel
open Ring W2

inductive Res where
  | op (g : GoOp)
  | panic                 -- index out of range in the quick-reject byte comparison
  deriving DecidableEq, Repr, Inhabited

/-- `t.dict.buf.data[i]` with `i := rear − dist + off; if i < 0 { i += len }` (hashtable.go: no wrap at the upper end) -/
def byteHT (d : EDict) (dist off : Nat) : Option UInt8 :=
  let i := if dist ≤ d.buf.rear + off then d.buf.rear + off - dist else d.buf.rear + off + d.buf.len - dist
  if i < d.buf.len then some (d.buf.data.get! i) else none

/-- bintree.go wraps at both ends: `if i < 0 { i += len } else if i >= len { i -= len }` -/
def byteBT (d : EDict) (dist off : Nat) : Option UInt8 :=
  let i := if dist ≤ d.buf.rear + off then d.buf.rear + off - dist else d.buf.rear + off + d.buf.len - dist
  let i := if dist ≤ d.buf.rear + off ∧ i ≥ d.buf.len then i - d.buf.len else i
  if i < d.buf.len then some (d.buf.data.get! i) else none

/-- the candidate loop of `hashTable.NextOp`; state `m = (distance, n)`; `none` = panic -/
def htLoop (d : EDict) (data : ByteArray) (rep0 : Nat) : List Nat → Nat × Nat → Option (Nat × Nat)
  | [], m => some m
  | dist :: rest, m =>
    if dist > d.dictLen then htLoop d data rep0 rest m else
    match byteHT d dist m.2 with
    | none => none
    | some b =>
      if b ≠ data.get! m.2 then htLoop d data rep0 rest m else
      let n := d.buf.matchLen dist data
      if n = 0 then htLoop d data rep0 rest m
      else if n = 1 ∧ dist - 1 ≠ rep0 then htLoop d data rep0 rest m
      else if n > m.2 then
        (if n = data.size then some (dist, n) else htLoop d data rep0 rest (dist, n))
      else htLoop d data rep0 rest m

/-- `hashTable.NextOp`: `cands` are the distances `head − pos` of the hash-chain positions, most recent first -/
def nextOpHT (d : EDict) (cands : List Nat) (rep0 : Nat) : Res :=
  let data := d.buf.peek 273
  if data.size = 0 then .panic else
  let dists := [1, 2, 3, 4, 5, 6, 7, 8] ++ cands.filter (fun x => x > 8)
  match htLoop d data rep0 dists (0, 0) with
  | none => .panic
  | some (dist, n) => if n = 0 then .op (.lit (data.get! 0).toNat) else .op (.mtch dist n)

structure BTParams where
  rep0 : Nat
  nAccept : Nat
  check : Nat
  stopShorter : Bool

/-- `binTree.match`: (m, checked, accepted); `none` = panic -/
def btMatch (d : EDict) (data : ByteArray) (p : BTParams) : List Nat → Nat × Nat → Nat → Option ((Nat × Nat) × Nat × Bool)
  | dists, m, checked =>
    if checked ≥ p.check then some (m, checked, true) else
    match dists with
    | [] => some (m, checked, false)
    | dist :: rest =>
      let checked := checked + 1
      if dist > d.dictLen then btMatch d data p rest m checked else
      let quickOk : Option Bool :=
        if m.2 > 0 then
          match byteBT d dist (m.2 - 1) with
          | none => none
          | some b => some (b == data.get! (m.2 - 1))
        else some true
      match quickOk with
      | none => none
      | some false => if p.stopShorter then some (m, checked, false) else btMatch d data p rest m checked
      | some true =>
        let n := d.buf.matchLen dist data
        if n = 0 then (if p.stopShorter then some (m, checked, false) else btMatch d data p rest m checked)
        else if n = 1 ∧ dist - 1 ≠ p.rep0 then btMatch d data p rest m checked
        else if n < m.2 ∨ (n = m.2 ∧ dist ≥ m.1) then btMatch d data p rest m checked
        else if n ≥ p.nAccept then some ((dist, n), checked, true)
        else btMatch d data p rest (dist, n) checked
termination_by dists _ _ => dists.length

/-- `binTree.NextOp`: `special` = the exact-word branch (`u == v && len(data) == 4`) with its candidate list `a`;
    otherwise `a` are the successor candidates and `b` the predecessor candidates -/
def nextOpBT (d : EDict) (special : Bool) (a b : List Nat) (rep0 : Nat) : Res :=
  let data := d.buf.peek 273
  if data.size = 0 then .panic else
  let fin (m : Nat × Nat) : Res := if m.2 = 0 then .op (.lit (data.get! 0).toNat) else .op (.mtch m.1 m.2)
  let p : BTParams := { rep0 := rep0, nAccept := 273, check := 32, stopShorter := false }
  match btMatch d data p [3, 2, 1] (0, 0) 0 with
  | none => .panic
  | some (m, checked, accepted) =>
    if accepted then fin m else
    let p := { p with check := p.check - checked }
    if special then
      match btMatch d data p a m 0 with
      | none => .panic
      | some (m, _, _) => fin m
    else
      let p := { p with stopShorter := true }
      match btMatch d data p a m 0 with
      | none => .panic
      | some (m, checked, accepted) =>
        if accepted then fin m else
        let p := { p with check := p.check - checked }
        match btMatch d data p b m 0 with
        | none => .panic
        | some (m, _, _) => fin m

end Sel
