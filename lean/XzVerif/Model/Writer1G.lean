import XzVerif.Model.Writer1F
/-
  Model.Writer1G — the classic .lzma writer on a failing sink, FAITHFUL ALSO AFTER THE FAILURE (property C09: "no call
  panics, not even a Close issued after the failure").

  Model/Writer1F.lean stops being exact at the call in which the first fault strikes.  Here the encoder is run decision
  by decision as lzma/rangecodec.go and lzma/encoder.go run it, every byte going through the byte writer at once:
  * `EncodeBit` / `DirectEncodeBit` update the probability and `nrange`/`low` FIRST and then normalise; `shiftLow` writes
    `cache + carry` and the pending 0xff bytes one by one, decrementing `cacheLen` after each byte that went through; a
    failing `WriteByte` returns from the middle: `nrange` is already shifted, `low` and `cache` are not, `cacheLen`
    counts what is still pending; the next `shiftLow` starts again with `cache + carry`;
  * an operation whose encoding failed is NOT discarded from the look-ahead; the adaptive probabilities keep every
    update made up to and including the failing decision; `writeMatch` has rotated the rep registers and advanced the
    state exactly when the failure came after the decisions that select the kind of match (`stThreshold`);
    `writeLiteral` and the short rep update the state only after their last decision;
  * the match finder is asked again (with the registers as they are now) the next time `compress` runs;
  * plain sinks sit behind bufio: a failed flush is remembered (`berr`), what the sink did not take stays in the buffer,
    every later `WriteByte` fails at once; `Close` = `encoder.Close` (compress all, end marker, five `shiftLow`) then
    `buf.Flush()`, reporting the first error; `io.ByteWriter` sinks see every byte as one call and nothing is sticky.
  The explicit panics (`writeMatch`'s range checks = "proposal not encodable", `shiftLow`'s "negative cacheLen") are
  outcomes, so "never" is a theorem (Proofs/Writer1G.lean).  The per-call tie compares EVERY call of a history, before
  and after the fault, and the sink bytes.  Core-only.
-/
namespace W1G
open W1 Lzma Rc Lzma2 W2 W2F W1F

/-- the byte writer under the range encoder: bufio in front of a plain sink, or the sink itself -/
structure SK where
  sunk : ByteArray := ByteArray.empty     -- what the sink has accepted
  calls : Nat := 0                        -- sink calls so far
  buf : ByteArray := ByteArray.empty      -- bufio's buffer (plain sinks)
  berr : Bool := false                    -- bufio's stored error
  hit : Bool := false                     -- ghost: some sink call failed

/-- one call on the sink -/
def SK.call (F : Plan) (k : SK) (p : ByteArray) : SK × Bool × Nat :=
  match F k.calls with
  | none => ({ k with sunk := k.sunk ++ p, calls := k.calls + 1 }, true, p.size)
  | some g =>
    let m := min (g p.size) p.size
    ({ k with sunk := k.sunk ++ p.extract 0 m, calls := k.calls + 1, hit := true }, false, m)

/-- `bufio.Writer.Flush` -/
def SK.flush (F : Plan) (k : SK) : SK × Bool :=
  if k.berr then (k, false) else
  if k.buf.size = 0 then (k, true) else
  match k.call F k.buf with
  | (k', true, _) => ({ k' with buf := ByteArray.empty }, true)
  | (k', false, m) => ({ k' with buf := k.buf.extract m k.buf.size, berr := true }, false)

/-- `WriteByte` on the byte writer -/
def SK.put (kind : Kind) (F : Plan) (k : SK) (c : Nat) : SK × Bool :=
  match kind with
  | .byteWriter =>
    let (k', ok, _) := k.call F (ByteArray.empty.push c.toUInt8)
    (k', ok)
  | .plain =>
    if k.berr then (k, false) else
    if k.buf.size ≥ bufioSize then
      match k.flush F with
      | (k', true) => ({ k' with buf := k'.buf.push c.toUInt8 }, true)
      | (k', false) => (k', false)
    else ({ k with buf := k.buf.push c.toUInt8 }, true)

inductive Out where
  | ok
  | fail        -- the byte writer returned an error
  | panic       -- "negative cacheLen"
  deriving DecidableEq, Repr, Inhabited

/-- the write loop of `shiftLow`: `n` bytes pending, the first is `first`, the others `rest`; returns what is still
    pending when a write fails -/
def putRun (kind : Kind) (F : Plan) (first rest : Nat) : Nat → SK → SK × Nat × Bool
  | 0, k => (k, 0, true)
  | n + 1, k =>
    match k.put kind F first with
    | (k', true) => putRun kind F rest rest n k'
    | (k', false) => (k', n + 1, false)

/-- `rangeEncoder.shiftLow` -/
def shiftLowF (kind : Kind) (F : Plan) (e : Enc) (k : SK) : Enc × SK × Out :=
  if e.low % 2 ^ 32 < 0xff000000 ∨ e.low / 2 ^ 32 ≠ 0 then
    if e.cacheLen = 0 then (e, k, .panic) else
    let carry := e.low / 2 ^ 32
    match putRun kind F ((e.cache + carry) % 256) ((255 + carry) % 256) e.cacheLen k with
    | (k', _, true) =>
      ({ e with low := (e.low % 2 ^ 24) * 256, cache := (e.low % 2 ^ 32) / 2 ^ 24, cacheLen := 1 }, k', .ok)
    | (k', left, false) => ({ e with cacheLen := left }, k', .fail)
  else ({ e with low := (e.low % 2 ^ 24) * 256, cacheLen := e.cacheLen + 1 }, k, .ok)

/-- `EncodeBit` / `DirectEncodeBit` after the probability update: apply, then normalise -/
def stepF (kind : Kind) (F : Plan) (e : Enc) (dn : Decn) (k : SK) : Enc × SK × Out :=
  let e1 := e.apply dn
  if e1.range < 2 ^ 24 then shiftLowF kind F { e1 with range := e1.range * 256 } k else (e1, k, .ok)

/-- a path of decisions; returns the number of decisions that went through completely -/
def encPathF (kind : Kind) (F : Plan) : Tbl → Enc → SK → Path → Nat → Tbl × Enc × SK × Out × Nat
  | t, e, k, [], i => (t, e, k, .ok, i)
  | t, e, k, (.adaptive c, b) :: π, i =>
    match stepF kind F e ⟨some (t.get c), b⟩ k with
    | (e', k', .ok) => encPathF kind F (t.upd c (pm.next (t.get c) b)) e' k' π (i + 1)
    | (e', k', o) => (t.upd c (pm.next (t.get c) b), e', k', o, i)
  | t, e, k, (.direct, b) :: π, i =>
    match stepF kind F e ⟨none, b⟩ k with
    | (e', k', .ok) => encPathF kind F t e' k' π (i + 1)
    | (e', k', o) => (t, e', k', o, i)

/-- after how many completed decisions `writeMatch` has rotated the registers and advanced the state (a literal and a
    short rep update only after their last decision, i.e. never when the encoding failed) -/
def stThreshold : RawOp → Option Nat
  | .lit _ => none
  | .shortRep => none
  | .mtch _ _ => some 2
  | .rep g _ => if g ≤ 1 then some 4 else some 5

structure St (σ : Type) where
  w : W1.St σ            -- `body` is not used here: the bytes are in `k`
  k : SK := {}

inductive OpOut where
  | ok
  | fail
  | panic
  deriving DecidableEq, Repr, Inhabited

variable {σ : Type}

/-- `writeOp` + `Discard`: the proposal `g`, the matcher state after proposing it -/
def encodeOp (c : W1.Cfg) (kind : Kind) (F : Plan) (s : St σ) (m' : σ) (g : GoOp) : St σ × OpOut :=
  let w := { s.w with m := m' }
  if !g.encodable w.s w.look.size then ({ s with w := w }, .panic) else
  let op := classify w.s g
  match encPathF kind F w.tbl w.e s.k (opEnc (w.ctx c) op) 0 with
  | (tbl', e', k', .ok, _) =>
    let n := g.len
    ({ w := { w with s := w.s.apply op, tbl := tbl', e := e',
                     hist := w.hist ++ w.look.extract 0 n, look := w.look.extract n w.look.size, ops := w.ops.push op },
       k := k' }, .ok)
  | (tbl', e', k', o, i) =>
    let s' := match stThreshold op with
      | some t => if i ≥ t then w.s.apply op else w.s
      | none => w.s
    ({ w := { w with s := s', tbl := tbl', e := e' }, k := k' }, if o = .panic then .panic else .fail)

def compress (c : W1.Cfg) (M : Matcher σ) (kind : Kind) (F : Plan) (all : Bool) : Nat → St σ → St σ × OpOut
  | 0, s => (s, .ok)
  | fuel + 1, s =>
    if s.w.look.size > (if all then 0 else Gen.lzma_maxMatchLen - 1) then
      let (g, m') := M.next s.w.m s.w.hist s.w.look s.w.s
      match encodeOp c kind F s m' g with
      | (s', .ok) => compress c M kind F all fuel s'
      | r => r
    else (s, .ok)

/-- `encoder.Write` -/
def encWrite (c : W1.Cfg) (M : Matcher σ) (kind : Kind) (F : Plan) (p : ByteArray) : Nat → St σ → Nat → St σ × Nat × OpOut
  | 0, s, n => (s, n, .panic)
  | fuel + 1, s, n =>
    let t := min (p.size - n) (s.w.dictAvail c)
    let s1 := { s with w := { s.w with look := s.w.look ++ p.extract n (n + t) } }
    let n1 := n + t
    if n1 < p.size then
      match compress c M kind F false (s1.w.look.size + 1) s1 with
      | (s2, .ok) => encWrite c M kind F p fuel s2 n1
      | (s2, o) => (s2, n1, o)
    else (s1, n1, .ok)

inductive Res where
  | done (n : Nat) (e : Option W1.Err)
  | sink (n : Nat)            -- (n, the byte writer's error)
  | panic
  deriving Inhabited

/-- `NewWriter`: the header (into bufio's buffer, or one Write on a ByteWriter sink) -/
def new (c : W1.Cfg) (kind : Kind) (F : Plan) (m0 : σ) : St σ × Bool :=
  let hdr := Lzma1.headerBytes c.header
  match kind with
  | .plain => ({ w := W1.init c m0, k := { buf := hdr } }, true)
  | .byteWriter =>
    let (k', ok, _) := ({} : SK).call F hdr
    ({ w := W1.init c m0, k := k' }, ok)

/-- `Writer.Write` -/
def write (c : W1.Cfg) (M : Matcher σ) (kind : Kind) (F : Plan) (s : St σ) (p : ByteArray) : St σ × Res :=
  let (q, cut) : ByteArray × Bool :=
    match c.size with
    | some sz =>
      let m := sz - (s.w.hist.size + s.w.look.size)
      if m < p.size then (p.extract 0 m, true) else (p, false)
    | none => (p, false)
  match encWrite c M kind F q (q.size + 2) s 0 with
  | (s', n, .ok) => (s', .done n (if cut then some .noSpace else none))
  | (s', n, .fail) => (s', .sink n)
  | (s', _, .panic) => (s', .panic)

/-- `rangeEncoder.Close`: five times `shiftLow` -/
def rcClose (kind : Kind) (F : Plan) : Nat → Enc → SK → Enc × SK × Out
  | 0, e, k => (e, k, .ok)
  | n + 1, e, k =>
    match shiftLowF kind F e k with
    | (e', k', .ok) => rcClose kind F n e' k'
    | r => r

/-- `Writer.Close` -/
def close (c : W1.Cfg) (M : Matcher σ) (kind : Kind) (F : Plan) (s : St σ) : St σ × Res :=
  let sizeOk := match c.size with
    | some sz => decide (s.w.hist.size + s.w.look.size = sz)
    | none => true
  if !sizeOk then (s, .done 0 (some .size)) else
  -- encoder.Close
  let (s1, o1) := compress c M kind F true (s.w.look.size + 1) s
  let (s2, o2) : St σ × OpOut :=
    if o1 ≠ .ok then (s1, o1) else
    -- the end marker goes through `writeMatch` like any match (rep search, register rotation and state update included:
    -- after a failed attempt the marker's distance sits in rep[0] and a second Close encodes it as a rep match)
    let mop := classify s1.w.s (.mtch (eosDist + 1) 2)
    let (tbl', e', k', om, i) :=
      if c.marker then encPathF kind F s1.w.tbl s1.w.e s1.k (opEnc (s1.w.ctx c) mop) 0
      else (s1.w.tbl, s1.w.e, s1.k, Out.ok, 0)
    let st' : Lzma.St :=
      if !c.marker then s1.w.s
      else if om = .ok then s1.w.s.apply mop
      else match stThreshold mop with
        | some t => if i ≥ t then s1.w.s.apply mop else s1.w.s
        | none => s1.w.s
    let s1' := { s1 with w := { s1.w with tbl := tbl', e := e', s := st' }, k := k' }
    match om with
    | .panic => (s1', .panic)
    | .fail => (s1', .fail)
    | .ok =>
      match rcClose kind F 5 s1'.w.e s1'.k with
      | (e'', k'', .ok) => ({ s1' with w := { s1'.w with e := e'' }, k := k'' }, .ok)
      | (e'', k'', .fail) => ({ s1' with w := { s1'.w with e := e'' }, k := k'' }, .fail)
      | (e'', k'', .panic) => ({ s1' with w := { s1'.w with e := e'' }, k := k'' }, .panic)
  if o2 = .panic then (s2, .panic) else
  -- buf.Flush() for plain sinks; the first error wins
  match kind with
  | .byteWriter => (s2, if o2 = .ok then .done 0 none else .sink 0)
  | .plain =>
    let (k3, okf) := s2.k.flush F
    ({ s2 with k := k3 }, if o2 = .ok ∧ okf then .done 0 none else .sink 0)

/-- a history; every call is issued except that a panic or a successful Close ends it -/
def run (c : W1.Cfg) (M : Matcher σ) (kind : Kind) (F : Plan) : St σ → List W1.Call → St σ × List (Res × Nat)
  | s, [] => (s, [])
  | s, .write p :: rest =>
    let (s', r) := write c M kind F s p
    match r with
    | .panic => (s', [(r, s'.k.sunk.size)])
    | _ =>
      let (sf, rs) := run c M kind F s' rest
      (sf, (r, s'.k.sunk.size) :: rs)
  | s, .close :: rest =>
    let (s', r) := close c M kind F s
    match r with
    | .panic => (s', [(r, s'.k.sunk.size)])
    | .done _ none => (s', [(r, s'.k.sunk.size)])
    | _ =>
      let (sf, rs) := run c M kind F s' rest
      (sf, (r, s'.k.sunk.size) :: rs)

end W1G
