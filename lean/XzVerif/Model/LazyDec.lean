import XzVerif.Model.Lzma1
import XzVerif.Model.Ring
/-
  Model.LazyDec — the classic LZMA reader as the code runs it: lzma/decoder.go (`readOp`, `apply`, `decompress`,
  `Read`, `Decompressed`) on top of the decoder dictionary's RING (lzma/decoderdict.go, lzma/buffer.go as modelled
  in Model/Ring.lean) and lzma/reader.go (`NewReader`, `Read`).  Unlike Codec/LzmaDec.lean (`decSegment`: the whole
  segment at once over an unbounded history) this is the lazy machine:
  * `decompress` decodes operations only while the ring has room for a maximal match (`Available() ≥ 273`), so a
    `writeMatch` never lacks space; it stops at the end marker, at the declared size (then an optional end marker is
    consumed), or when the input runs dry;
  * `Read` drains the ring into the caller's buffer, refills it with `decompress`, and returns when the buffer is full,
    when an error occurred, or — with `io.EOF` — when the stream has ended and the ring is empty;
  * coding contexts are taken from the ring (`byteAt`) and the head counter, not from a history array.
  Every branch in which the Go code returns an error or panics is an outcome here (`ErrNoSpace`, distance / length
  out of range, the `panic` of the copy loop), so "never happens" is a theorem (Proofs/LazyDec.lean) and a change of
  the refill threshold or of the ring arithmetic moves the correspondence (per-call results under read schedules).
  The source delivers the whole input and then either io.EOF or — `srcEnd` — an error of its own (C09); its
  fragmentation is the subject of Model/Src.lean.  Core-only.
-/
namespace LazyDec
open Lzma Rc Ring

inductive Err where
  | unexpectedEOF
  | size              -- errSize
  | dataAfterEOS      -- errDataAfterEOS
  | noSpace           -- ErrNoSpace from the ring
  | distRange         -- writeMatch: distance out of range
  | lenRange          -- writeMatch: length out of range
  | panic             -- a panic of the Go code
  | other (what : String)   -- errors of NewReader
  | src               -- the error of a failing source, handed on unchanged (C09)
  deriving DecidableEq, Repr, Inhabited

structure LSt where
  p : Props
  s : St := {}
  tbl : Tbl
  rd : Dec
  dict : DDict
  start : Nat := 0              -- decoder.start
  size : Option Nat             -- decoder.size (none: negative = unknown)
  eos : Bool := false
  eosMarker : Bool := false
  srcEnd : Bool := false        -- the end of `rd.inp` is the end of a source that FAILS there (not io.EOF)

def LSt.decompressed (l : LSt) : Nat := l.dict.head - l.start

/-- coding context of the next operation, read off the ring -/
def LSt.ctx (l : LSt) : Ctx :=
  { st := l.s.st
    ps := l.dict.head % 2 ^ l.p.pb
    litBase := aLit + 0x300 * litState l.p.lc l.p.lp l.dict.head (l.dict.byteAt 1).toNat
    matchByte := (l.dict.byteAt (l.s.r0 + 1)).toNat }

inductive OpRes where
  | op (o : RawOp) (l : LSt)      -- an operation to apply; state and coder already advanced
  | marker (l : LSt)              -- errEOS
  | dry (l : LSt)                 -- io.EOF inside the range decoder

/-- `readOp` -/
def readOp (l : LSt) : OpRes :=
  match decTree pm (opDec l.ctx) l.tbl l.rd with
  | none => .dry l
  | some (o, tbl', rd') =>
    let l' := { l with s := l.s.apply o, tbl := tbl', rd := rd' }
    match o with
    | .mtch _ dd => if dd = eosDist then .marker { l' with eosMarker := true } else .op o l'
    | _ => .op o l'

/-- `apply`: the operation's effect on the ring -/
def apply (l : LSt) (o : RawOp) : Except Err LSt :=
  let wm (dist len : Nat) : Except Err LSt :=
    match l.dict.writeMatch dist len with
    | .ok d => .ok { l with dict := d }
    | .distRange => .error .distRange
    | .lenRange => .error .lenRange
    | .noSpace => .error .noSpace
    | .panic => .error .panic
  match o with
  | .lit b =>
    match l.dict.writeByte b.toUInt8 with
    | some d => .ok { l with dict := d }
    | none => .error .noSpace
  | .mtch len dd => wm (dd + 1) len
  | .rep _ len => wm (l.s.r0 + 1) len
  | .shortRep => wm (l.s.r0 + 1) 1

inductive DRes where
  | more (l : LSt)                -- nil: the ring is (nearly) full
  | eof (l : LSt)                 -- io.EOF: the stream has ended (data may still be buffered)
  | err (l : LSt) (e : Err)

/-- after the declared size has been produced: "if !possiblyAtEnd { readOp … }; return io.EOF" -/
def tail (l : LSt) : DRes :=
  if l.rd.code = 0 then .eof l else
  match readOp l with
  | .op _ l' => .err l' .size
  | .dry l' => .err l' (if l'.srcEnd then .src else .unexpectedEOF)
  | .marker l' => .eof l'

/-- the fill loop of `decompress` -/
def fill : Nat → LSt → DRes
  | 0, l => .more l
  | fuel + 1, l =>
    if l.dict.buf.available ≥ 273 then
      match readOp l with
      | .dry l' => if l'.srcEnd then .err l' .src else .err { l' with eos := true } .unexpectedEOF
      | .marker l' =>
        let l' := { l' with eos := true }
        if l'.rd.code ≠ 0 then .err l' .dataAfterEOS
        else match l'.size with
          | some sz => if sz ≠ l'.decompressed then .err l' .size else .eof l'
          | none => .eof l'
      | .op o l' =>
        match apply l' o with
        | .error e => .err l' e
        | .ok l'' =>
          match l''.size with
          | some sz =>
            if l''.decompressed ≥ sz then
              let l3 := { l'' with eos := true }
              if l3.decompressed > sz then .err l3 .size else tail l3
            else fill fuel l''
          | none => fill fuel l''
    else .more l

/-- `decompress` -/
def decompress (l : LSt) : DRes :=
  if l.eos then .eof l else
  if l.size = some 0 ∧ l.decompressed = 0 then tail { l with eos := true }
  else fill (l.dict.buf.available + 1) l

inductive RStat where
  | ok                -- nil
  | eof               -- io.EOF
  | err (e : Err)
  deriving DecidableEq, Repr, Inhabited

/-- the loop of `decoder.Read` for a buffer of `len > 0` bytes; `acc` = bytes copied so far -/
def readLoop (len : Nat) : Nat → LSt → ByteArray → LSt × ByteArray × RStat
  | 0, l, acc => (l, acc, .err .panic)
  | fuel + 1, l, acc =>
    let (d', chunk) := l.dict.read (len - acc.size)
    let l := { l with dict := d' }
    if chunk.size = 0 ∧ l.eos then (l, acc, .eof) else
    let acc := acc ++ chunk
    if acc.size ≥ len then (l, acc, .ok) else
    match decompress l with
    | .err l' e => (l', acc, .err e)
    | .more l' => readLoop len fuel l' acc
    | .eof l' => readLoop len fuel l' acc

/-- `Reader.Read(p)` with `len(p) = len` -/
def read (l : LSt) (len : Nat) : LSt × ByteArray × RStat :=
  if len = 0 then (l, ByteArray.empty, .ok) else readLoop len (len + 3) l ByteArray.empty

/-- what `newRangeDecoder` reports when it fails on the bytes `seg` it can see (`srcEnd`: running out of them is the
    failure of the source, not the end of the data) -/
def initErr (seg : List Nat) (srcEnd : Bool) : Err :=
  let endE : Err := if srcEnd then .src else .unexpectedEOF
  match seg with
  | [] => endE
  | b0 :: _ => if b0 ≠ 0 then .other "range decoder init" else if seg.length < 5 then endE else .other "range decoder init"

/-- `ReaderConfig{DictCap: cfgCap}.NewReader` on the whole input; `srcErr`: the source fails (with an error other than
    io.EOF) where the input ends -/
def newReaderE (srcErr : Bool) (cfgCap : Nat) (inp : ByteArray) : Except Err LSt :=
  if inp.size < 13 then .error (if srcErr then .src else if inp.size = 0 then .other "unexpected EOF" else .unexpectedEOF) else
  match Lzma2.propsOfByte (Lzma2.get inp 0) with
  | none => .error (.other "invalid properties code")
  | some p =>
    let dc := Lzma1.le inp 1 4
    let sz := Lzma1.le inp 5 8
    if sz ≠ 2 ^ 64 - 1 ∧ sz ≥ 2 ^ 63 then .error (.other "uncompressed size out of int64 range") else
    let size : Option Nat := if sz = 2 ^ 64 - 1 then none else some sz
    let cfgCap := if cfgCap = 0 then 8 * 1024 * 1024 else cfgCap      -- ReaderConfig.fill
    let cap := max cfgCap (max dc Lzma1.minDictCap)
    let body := bytesToList inp 13 inp.size
    match Dec.init body with
    | none => .error (initErr body srcErr)
    | some rd => .ok { p := p, tbl := initTable p.lc p.lp, rd := rd, dict := DDict.new cap, size := size, srcEnd := srcErr }

/-- the source ends with io.EOF -/
def newReader (cfgCap : Nat) (inp : ByteArray) : Except Err LSt := newReaderE false cfgCap inp

/-- a schedule of reads: stops at the first call that does not return nil; per call (bytes, status) -/
def readSeq : LSt → List Nat → List (ByteArray × RStat)
  | _, [] => []
  | l, len :: rest =>
    let (l', out, st) := read l len
    match st with
    | .ok => (out, st) :: readSeq l' rest
    | _ => [(out, st)]

/-- all bytes delivered by a schedule -/
def delivered (rs : List (ByteArray × RStat)) : ByteArray := rs.foldl (fun a r => a ++ r.1) ByteArray.empty

end LazyDec
