import XzVerif.Model.Xz
import XzVerif.Model.DictCap
import XzVerif.Model.Writer2
/-
  Model.XzW — the whole xz writer (writer.go: `WriterConfig`, `NewWriter`, `Writer.Write`, `Writer.Close`,
  `blockWriter`): the bytes of the Write calls are distributed over blocks of `BlockSize` bytes, every block is an
  LZMA2 stream produced by the Writer2 machine (Model/Writer2.lean) with a fresh match finder, wrapped into block
  header (dictionary size code of `EncodeDictCap(DictCap)`, no size fields), padding and check; stream header,
  index and footer around them (Model/Xz.lean `buildStream`).  Core-only.
-/
namespace XzW
open W2

structure Cfg where
  w2 : W2.Cfg
  blockSize : Nat      -- `BlockSize` (the default "none" is 2^63 − 1)
  flags : Nat          -- check id: 0 none, 1 CRC32, 4 CRC64, 10 SHA-256

/-- `Writer.Write` for one call: the pieces of `p` handed to the block writers.  State: closed blocks (each the
    list of pieces its LZMA2 writer received), pieces of the open block, bytes in the open block. -/
def writeLoop (bs : Nat) : Nat → (List (List ByteArray) × List ByteArray × Nat) → ByteArray → Nat →
    List (List ByteArray) × List ByteArray × Nat
  | 0, st, _, _ => st
  | fuel + 1, (blocks, cur, n), p, off =>
    let t := bs - n
    if p.size - off > t then
      -- errNoSpace: the block takes `t` bytes (possibly none), is closed, a new one opened
      writeLoop bs fuel (blocks ++ [cur ++ [p.extract off (off + t)]], [], 0) p (off + t)
    else (blocks, cur ++ [p.extract off p.size], n + (p.size - off))

/-- all Write calls followed by Close: per block the pieces written to its LZMA2 writer -/
def split (bs : Nat) (writes : List ByteArray) : List (List ByteArray) :=
  let (blocks, cur, _) := writes.foldl (fun st p => writeLoop bs (p.size + 2) st p 0) ([], [], 0)
  blocks ++ [cur]

/-- the LZMA2 writer of one block: every piece is one `Write`, then `Close` -/
def runBlock {σ : Type} (c : Cfg) (M : Matcher σ) (m0 : σ) (pieces : List ByteArray) : WSt σ :=
  (W2.run c.w2 M (W2.init c.w2 m0) (pieces.map .write ++ [.close])).1

def blockSpec {σ : Type} (c : Cfg) (w : WSt σ) : Xz.BlockSpec :=
  { extraPad := 0, withCs := false, withUs := false, dictCode := Model.encodeDictCap c.w2.dictCap, chunks := w.chunks }

/-- the complete stream after `Write`* `Close` -/
def run {σ : Type} (c : Cfg) (M : Matcher σ) (m0 : σ) (writes : List ByteArray) : ByteArray :=
  let blocks := (split c.blockSize writes).map (fun pieces => blockSpec c (runBlock c M m0 pieces))
  Xz.buildStream c.flags blocks.toArray 0

end XzW
