/-
  Model.ReadLoop — what a caller observes from `Read` on the three readers (xz.Reader.Read,
  lzma.Reader2.Read, lzma.decoder.Read after the zero-length fix): every call fills the buffer
  completely unless the content ends; a call that wants more than is left returns the rest
  together with end-of-stream; a zero-length call returns (0, nil); after end-of-stream every
  call with a non-empty buffer returns (0, EOF).  The loops `for n < len(p)` of reader.go /
  reader2.go and `decoder.Read` implement exactly this; the correspondence check compares the
  per-call (n, status) sequence of the real readers with `readSeq` for generated schedules and
  source fragmentations.  Core-only.
-/
namespace ReadLoop

/-- one `Read(p)` with `len p = n` on a reader that still has `rem` to deliver:
    delivered bytes, end-of-stream flag, what is left -/
def readCall {α : Type} (rem : List α) (n : Nat) : List α × Bool × List α :=
  if n = 0 then ([], false, rem)
  else if rem.length < n then (rem, true, [])
  else (rem.take n, false, rem.drop n)

/-- a sequence of calls -/
def readSeq {α : Type} : List α → List Nat → List (List α × Bool)
  | _, [] => []
  | rem, n :: ns =>
    let r := readCall rem n
    (r.1, r.2.1) :: readSeq r.2.2 ns

/-- the (n, eof) pairs only, from the content length (what the driver prints) -/
def readSeqLens : Nat → List Nat → List (Nat × Bool)
  | _, [] => []
  | rem, n :: ns =>
    if n = 0 then (0, false) :: readSeqLens rem ns
    else if rem < n then (rem, true) :: readSeqLens 0 ns
    else (n, false) :: readSeqLens (rem - n) ns

def delivered {α : Type} (rs : List (List α × Bool)) : List α := (rs.map (·.1)).flatten

end ReadLoop
