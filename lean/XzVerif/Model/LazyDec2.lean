import XzVerif.Model.LazyDec
import XzVerif.Model.Chunk
/-
  Model.LazyDec2 — the LZMA2 reader as the code runs it: lzma/reader2.go (`NewReader2`, `startChunk`, `Read`,
  `uncompressedReader.fill/Read/Reopen`) with the chunk header parser of lzma/header2.go, the chunk automaton
  (regenerated graph of `chunkState.next`), the lazy decoder of Model/LazyDec.lean (`decoder.Read/decompress`,
  `Reopen`, the state handling per chunk type) and ONE decoder dictionary ring shared by compressed and uncompressed
  chunks (`Reset()` only clears the head counter; buffered data stays readable).

  * an LZMA chunk is decoded from `ByteReader(LimitReader(r, compressed+1))`: the range decoder sees at most the
    declared number of bytes, and the next header is read from where the decoder stopped (the Go reader does not skip
    unconsumed bytes);
  * an uncompressed chunk is copied into the ring in pieces of `Available()` bytes (`io.CopyN`);
  * `Read` moves on to the next chunk when the current chunk reader reports `io.EOF`; every error (and the final
    `io.EOF` after the end-of-stream chunk) is stored and returned by all later calls.
  The source delivers the whole input and then io.EOF or — `srcErr` — an error of its own, which `io.ReadFull`,
  `io.CopyN`, `io.LimitReader` and the byte reader hand on unchanged (C09).  Core-only.
-/
namespace LazyDec2
open Lzma Rc Ring LazyDec

inductive Cur where
  | none
  | unc
  | lz
  deriving DecidableEq, Repr, Inhabited

structure R2 where
  inp : ByteArray
  pos : Nat                        -- source position for headers and uncompressed data
  l : LSt                          -- the decoder (meaningful when `hasDec`) and THE dictionary `l.dict`
  hasDec : Bool := false
  segEnd : Nat := 0                -- end of the current LZMA chunk's limited region
  cstate : Nat := Gen.lzma_stateStart
  cur : Cur := .none
  uN : Nat := 0                    -- uncompressedReader.lr.N
  uEof : Bool := false
  uErr : Option RStat := none
  err : Option RStat := none       -- Reader2.err
  srcErr : Bool := false           -- the source fails (error other than io.EOF) where `inp` ends

def hdrLen (ctype : Nat) : Nat := (Gen.headerLen.getD ctype none).getD 0

/-- what running out of source bytes means -/
def R2.endE (r : R2) : RStat := if r.srcErr then .err .src else .err .unexpectedEOF

/-- `startChunk`; `.ok` = nil -/
def startChunk (r : R2) : R2 × RStat :=
  let r := { r with cur := .none }
  let inp := r.inp
  if r.pos ≥ inp.size then (r, r.endE) else
  let c := Lzma2.get inp r.pos
  match (Gen.headerChunkType.getD c none) with
  | none => ({ r with pos := r.pos + 1 }, .err (.other "unsupported chunk header byte"))
  | some ctype =>
    let hl := hdrLen ctype
    if r.pos + hl > inp.size then ({ r with pos := inp.size }, r.endE) else
    let body := r.pos + hl
    let hprops : Option (Option Props) :=
      if ctype = Gen.lzma_cLRN ∨ ctype = Gen.lzma_cLRND then
        match Lzma2.propsOfByte (Lzma2.get inp (r.pos + 5)) with
        | none => none
        | some p => some (some p)
      else some none
    match hprops with
    | none => ({ r with pos := body }, .err (.other "invalid properties code"))
    | some hp =>
    match Model.chunkNext r.cstate ctype with
    | none => ({ r with pos := body }, .err (.other "unexpected chunk type"))
    | some cs' =>
      let r := { r with pos := body, cstate := cs' }
      if cs' = Gen.lzma_stateStop then (r, .eof) else
      let dict := if ctype = Gen.lzma_cUD ∨ ctype = Gen.lzma_cLRND then { r.l.dict with head := 0 } else r.l.dict
      let r := { r with l := { r.l with dict := dict } }
      let usz16 := Lzma2.get inp (r.pos - hl + 1) * 256 + Lzma2.get inp (r.pos - hl + 2)
      if ctype = Gen.lzma_cU ∨ ctype = Gen.lzma_cUD then
        ({ r with cur := .unc, uN := usz16 + 1, uEof := false, uErr := none }, .ok)
      else
        let usize := (c % 32) * 65536 + usz16 + 1
        let csize := Lzma2.get inp (r.pos - hl + 3) * 256 + Lzma2.get inp (r.pos - hl + 4) + 1
        let n := min csize (inp.size - body)
        let seg := bytesToList inp body (body + n)
        -- state handling: the first decoder is created with the header's properties; later `cLR` resets the state,
        -- `cLRN`/`cLRND` replace it, `cL` keeps it
        let p : Props := match hp with | some p => p | none => r.l.p
        let fresh := !r.hasDec || decide (ctype ≠ Gen.lzma_cL)
        match Dec.init seg with
        | none =>
          -- `newRangeDecoder` failed (the error is stored by the caller: nothing is read afterwards)
          (r, .err (initErr seg (r.srcErr && decide (n < csize))))
        | some rd =>
          let l : LSt :=
            { r.l with p := p, s := if fresh then {} else r.l.s, tbl := if fresh then initTable p.lc p.lp else r.l.tbl,
                       rd := rd, start := r.l.dict.head, size := some usize, eos := false,
                       srcEnd := r.srcErr && decide (n < csize) }
          ({ r with l := l, hasDec := true, segEnd := body + n, cur := .lz }, .ok)

/-- `uncompressedReader.fill` -/
def ufill (r : R2) : R2 × RStat :=
  let r1 :=
    if !r.uEof then
      let want := r.l.dict.buf.available
      let k := min want (min r.uN (r.inp.size - r.pos))
      let (d', _, _) := r.l.dict.write (r.inp.extract r.pos (r.pos + k))
      let r' := { r with l := { r.l with dict := d' }, pos := r.pos + k, uN := r.uN - k }
      if k = want then (r', some RStat.ok, k)
      else if r.srcErr ∧ r.inp.size - r.pos < min want r.uN then (r', some (RStat.err .src), k)   -- io.CopyN hands on the source's error
      else ({ r' with uEof := true }, none, k)
    else (r, none, 0)
  match r1 with
  | (r', some st, _) => (r', st)
  | (r', none, k) =>
    if !r.uEof ∧ k > 0 then (r', .ok)
    else if r'.uN ≠ 0 then (r', .err .unexpectedEOF) else (r', .eof)

/-- `uncompressedReader.Read` for `len > 0` bytes -/
def uread (len : Nat) : Nat → R2 → ByteArray → R2 × ByteArray × RStat
  | 0, r, acc => (r, acc, .err .panic)
  | fuel + 1, r, acc =>
    match r.uErr with
    | some e => (r, acc, e)
    | none =>
      let (d', chunk) := r.l.dict.read (len - acc.size)
      let r := { r with l := { r.l with dict := d' } }
      let acc := acc ++ chunk
      if acc.size ≥ len then (r, acc, .ok) else
      match ufill r with
      | (r', .ok) => uread len fuel r' acc
      | (r', st) => ({ r' with uErr := some st }, acc, st)

/-- `chunkReader.Read` -/
def chunkRead (r : R2) (len : Nat) : R2 × ByteArray × RStat :=
  match r.cur with
  | .none => (r, ByteArray.empty, .err .panic)      -- nil chunk reader: a nil-pointer panic in Go
  | .unc => uread len (len + 3) r ByteArray.empty
  | .lz =>
    let (l', out, st) := LazyDec.read r.l len
    ({ r with l := l' }, out, st)

/-- the loop of `Reader2.Read` for a buffer of `len` bytes -/
def readLoop (len : Nat) : Nat → R2 → ByteArray → R2 × ByteArray × RStat
  | 0, r, acc => (r, acc, .err .panic)
  | fuel + 1, r, acc =>
    if acc.size < len then
      let (r1, chunk, st) := chunkRead r (len - acc.size)
      let acc := acc ++ chunk
      match st with
      | .ok =>
        if chunk.size = 0 then ({ r1 with err := some (.err (.other "Reader2 doesn't get data")) }, acc, .err (.other "Reader2 doesn't get data"))
        else readLoop len fuel r1 acc
      | .eof =>
        -- the chunk is finished: the source continues where its reader stopped
        let r2 := if r1.cur = .lz then { r1 with pos := r1.segEnd - r1.l.rd.inp.length } else r1
        match startChunk r2 with
        | (r3, .ok) => readLoop len fuel r3 acc
        | (r3, st') => ({ r3 with err := some st' }, acc, st')
      | .err e => ({ r1 with err := some (.err e) }, acc, .err e)
    else (r, acc, .ok)

/-- `Reader2.Read(p)`, `len(p) = len` -/
def read (r : R2) (len : Nat) : R2 × ByteArray × RStat :=
  match r.err with
  | some e => (r, ByteArray.empty, e)
  | none => readLoop len (2 * len + r.inp.size + 4) r ByteArray.empty

/-- `Reader2Config{DictCap: cfgCap}.NewReader2` on the whole input -/
def newReader2AtE (srcErr : Bool) (cfgCap : Nat) (inp : ByteArray) (pos : Nat) : R2 :=
  let cap := if cfgCap = 0 then 8 * 1024 * 1024 else cfgCap
  let l : LSt := { p := ⟨0, 0, 0⟩, tbl := #[], rd := { range := 0, code := 0, inp := [] }, dict := DDict.new cap, size := none }
  let r : R2 := { inp := inp, pos := pos, l := l, srcErr := srcErr }
  match startChunk r with
  | (r', .ok) => r'
  | (r', st) => { r' with err := some st }

def newReader2At (cfgCap : Nat) (inp : ByteArray) (pos : Nat) : R2 := newReader2AtE false cfgCap inp pos

def newReader2 (cfgCap : Nat) (inp : ByteArray) : R2 := newReader2At cfgCap inp 0

def newReader2E (srcErr : Bool) (cfgCap : Nat) (inp : ByteArray) : R2 := newReader2AtE srcErr cfgCap inp 0

/-- position of the underlying source: inside an LZMA chunk the byte reader has consumed what the range decoder took -/
def R2.srcPos (r : R2) : Nat := if r.cur = .lz then r.segEnd - r.l.rd.inp.length else r.pos

def readSeq : R2 → List Nat → List (ByteArray × RStat)
  | _, [] => []
  | r, len :: rest =>
    let (r', out, st) := read r len
    match st with
    | .ok => (out, st) :: readSeq r' rest
    | _ => [(out, st)]

end LazyDec2
