/-
  Model.GoPrelude — the fixed vocabulary of the REGENERATED translation of Go source (Gen/GoSrc.lean,
  written by harness/xlate.go on every run).  Core-only.

  * `Go.Err`  : Go `error` values as far as the translated subset tells them apart: nil, a package-level
                sentinel (`ErrLimit`, `io.EOF`, …) by name, `errors.New(text)` by text.
  * `Go.Res`  : result of a function that can panic (explicit `panic`, array index out of range) or loops
                (`fuel`: the loop bound of the translation was reached — theorems show it is not).
  * `Go.ByteWriter` / `Go.ByteReader` : the two EXTERNAL interfaces the translated code calls
                (`io.ByteWriter.WriteByte`, `io.ByteReader.ReadByte`).  Assumed behaviour (trusted base): a
                byte writer appends the byte and returns nil (failing sinks are the subject of Model/Writer*F);
                a byte reader hands out its bytes one by one and then returns io.EOF for ever.
-/
namespace Go

inductive Err where
  | nil
  | named (s : String)
  | new (s : String)
  deriving DecidableEq, Repr, Inhabited

inductive Res (α : Type) where
  | ok (a : α)
  | panic (msg : String)
  | fuel
  deriving Repr, DecidableEq

def Res.bind {α β : Type} (r : Res α) (f : α → Res β) : Res β :=
  match r with
  | .ok a => f a
  | .panic m => .panic m
  | .fuel => .fuel

@[simp] theorem Res.bind_ok {α β : Type} (a : α) (f : α → Res β) : (Res.ok a).bind f = f a := rfl
@[simp] theorem Res.bind_panic {α β : Type} (m : String) (f : α → Res β) : (Res.panic m : Res α).bind f = .panic m := rfl
@[simp] theorem Res.bind_fuel {α β : Type} (f : α → Res β) : (Res.fuel : Res α).bind f = .fuel := rfl

structure ByteWriter where
  out : List (BitVec 8)
  deriving Inhabited, DecidableEq, Repr

def ByteWriter.WriteByte (w : ByteWriter) (c : BitVec 8) : Err × ByteWriter :=
  (.nil, { out := w.out ++ [c] })

structure ByteReader where
  inp : List (BitVec 8)
  deriving Inhabited, DecidableEq, Repr

def ByteReader.ReadByte (r : ByteReader) : BitVec 8 × Err × ByteReader :=
  match r.inp with
  | [] => (0#8, .named "io.EOF", r)
  | b :: t => (b, .nil, { inp := t })

end Go
