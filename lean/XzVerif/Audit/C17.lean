import XzVerif.Props.C17
#print axioms Props.C17.C17_operation_cost
#print axioms Props.C17.C17_segment_fill
#print axioms Props.C17.C17_full_chunk_carries_3000
#print axioms Props.C17.C17_expansion_accounting
#print axioms Props.C17.C17_lzma2_no_expansion
#print axioms Props.C17.C17_lzma2_no_expansion_hashtable4
#print axioms Props.C17.C17_lzma2_no_expansion_bintree
#print axioms Props.C17.C17_run_proposal_inside_the_ring
#print axioms Props.C17.C17_run_proposal_at_the_ring_end
#print axioms Props.C17.C17_run_compresses_partial
#print axioms Props.C17.C17_run_compresses_partial_213
#print axioms Props.C17.C17_run_compresses_partial_bintree
#print axioms Props.C17.C17_xz_run_compresses_partial
