import XzVerif.Props.C16
#print axioms Props.C16.C16_ctrl_byte
#print axioms Props.C16.C16_ctrl_invalid
#print axioms Props.C16.C16_reader_iff_legal
#print axioms Props.C16.C16_reject_position
#print axioms Props.C16.C16_writer_legal
#print axioms Props.C16.C16_lazy_reader_decodes_every_legal_sequence
#print axioms Props.C16.C16_lazy_reader_rejects_at_offending_chunk
#print axioms Props.C16.C16_source_chunk_automaton
#print axioms Props.C16.C16_source_chunk_header_fields
