import XzVerif.Props.C18
#print axioms Props.C18.decode_table_is_spec
#print axioms Props.C18.decode_model_is_table
#print axioms Props.C18.decode_strict_mono
#print axioms Props.C18.decode_ends
#print axioms Props.C18.C18_encode
#print axioms Props.C18.C18_encode_smallest_size
#print axioms Props.C18.encode_samples_agree
#print axioms Props.C18.C18_source_encode
#print axioms Props.C18.C18_source_decode
