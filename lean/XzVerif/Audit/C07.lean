import XzVerif.Props.C07
#print axioms Props.C07.C07_reader_decodes_every_legal_body
#print axioms Props.C07.C07_tables
#print axioms Props.C07.C07_reader_reads_every_legal_stream
#print axioms Props.C07.lazy_of_batch
#print axioms Props.C07.C07_lazy_reader_reads_every_legal_stream_known
#print axioms Props.C07.C07_lazy_reader_reads_every_legal_stream_known_marker
#print axioms Props.C07.C07_lazy_reader_reads_every_legal_stream_unknown
#print axioms Props.C07.C07_source_header_fields
#print axioms Props.C07.C07_source_validDictCap
