import XzVerif.Props.C07
#print axioms Props.C07.C07_reader_decodes_every_legal_body
#print axioms Props.C07.C07_tables
#print axioms Props.C07.C07_reader_reads_every_legal_stream
