import XzVerif.Props.C06
#print axioms Props.C06.C06_body_roundtrip
#print axioms Props.C06.C06_properties_byte
