import XzVerif.Props.C06
#print axioms Props.C06.C06_body_roundtrip
#print axioms Props.C06.C06_properties_byte
#print axioms Props.C06.C06_stream_roundtrip_marker
#print axioms Props.C06.C06_stream_roundtrip_size
#print axioms Props.C06.C06_stream_roundtrip_size_and_marker
#print axioms Props.C06.C06_fill
#print axioms Props.C06.C06_size_contract_write
#print axioms Props.C06.C06_size_contract_close_and_roundtrip
#print axioms Props.C06.C06_size_contract_write_hashtable4
#print axioms Props.C06.C06_size_contract_write_bintree
#print axioms Props.C06.C06_close_and_roundtrip_hashtable4
#print axioms Props.C06.C06_close_and_roundtrip_bintree
#print axioms Props.C06.lazy1_of_batch
#print axioms Props.C06.C06_roundtrip_lazy_reader_hashtable4
