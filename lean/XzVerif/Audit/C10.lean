import XzVerif.Props.C10
#print axioms Props.C10.C10_data_safe
#print axioms Props.C10.C10_failure_clean
#print axioms Props.C10.C10_no_debris
#print axioms Props.C10.C10_success
#print axioms Props.C10.C10_remove_after_rename
