import XzVerif.Props.C02
#print axioms Props.C02.C02_strict_segment
#print axioms Props.C02.C02_strict_container
#print axioms Props.C02.C02_tables_are_format
#print axioms Props.C02.C02_padding
#print axioms Props.C02.C02_dict_size_covers
#print axioms Props.C02.C02_field_limits
#print axioms Props.C02.C02_block_discipline
#print axioms Props.C02.C02_writer_output_valid_strict_hashtable4
#print axioms Props.C02.C02_writer_output_valid_strict_bintree
#print axioms Props.C02.C02_source_translation_complete
#print axioms Props.C02.C02_source_EncodeBit
#print axioms Props.C02.C02_source_DirectEncodeBit
#print axioms Props.C02.C02_source_Close
#print axioms Props.C02.C02_source_encoder_init
#print axioms Props.C02.C02_source_byte_limit_is_the_models
#print axioms Props.C02.C02_source_arithmetic
#print axioms Props.C02.C02_source_context_addresses
