import XzVerif.Props.C04
#print axioms Props.C04.C04_block_checks_verified
#print axioms Props.C04.C04_no_silent_change_modulo_collisions
#print axioms Props.C04.C04_block_header_verified
#print axioms Props.C04.C04_tail_verified
#print axioms Props.C04.C04_clean_means_verified_and_consumed
#print axioms Props.C04.C04_lazy_clean_end_is_verified
#print axioms Props.C04.C04_source_readUvarint
#print axioms Props.C04.C04_source_padLen
#print axioms Props.C04.C04_source_size_fields_and_records
