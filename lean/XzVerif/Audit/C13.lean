import XzVerif.Props.C13
#print axioms Props.C13.readCall_nil
#print axioms Props.C13.C13_eof_stable
#print axioms Props.C13.delivered_nil
#print axioms Props.C13.C13_delivered_prefix
#print axioms Props.C13.C13_eof_means_all
#print axioms Props.C13.C13_eof_again
#print axioms Props.C13.C13_n_le_len
#print axioms Props.C13.C13_schedule_independent
#print axioms Props.C13.C13_lens_agree
#print axioms Props.C13.C13_decoder_loop_refines
#print axioms Props.C13.C13_decoder_zero_length
#print axioms Props.C13.C13_decoder_loop_schedule
#print axioms Props.C13.C13_chain_refines
#print axioms Props.C13.C13_chain_schedule
