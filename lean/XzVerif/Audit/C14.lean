import XzVerif.Props.C14
#print axioms Props.C14.C14_interleave_commutes
#print axioms Props.C14.C14_no_shared_mutable_state
#print axioms Props.C14.C14_logger_guarded
#print axioms Props.C14.C14_no_nondeterminism_sources
