import XzVerif.Props.C11
#print axioms Props.C11.C11_panic_sites_reviewed
#print axioms Props.C11.C11_headerLen_total
#print axioms Props.C11.C11_props_in_range
#print axioms Props.C11.C11_n_le_len
#print axioms Props.C11.C11_writeMatch_never_panics
#print axioms Props.C11.C11_ring_read_bounded
#print axioms Props.C11.C11_classic_reader_outcomes
#print axioms Props.C11.C11_classic_reader_model_terminates
#print axioms Props.C11.C11_lzma2_reader_model_terminates
#print axioms Props.C11.C11_xz_reader_model_terminates
#print axioms Props.C11.C11_source_readOp_no_panic
#print axioms Props.C11.C11_source_byteAt_no_panic
