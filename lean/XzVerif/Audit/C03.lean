import XzVerif.Props.C03
#print axioms Props.C03.C03_decodes_every_legal_segment
#print axioms Props.C03.C03_reads_every_wellformed_stream
#print axioms Props.C03.C03_content_independent_of_cap
#print axioms Props.C03.C03_tables
#print axioms Props.C03.C03_ring_byteAt
#print axioms Props.C03.C03_ring_match_appends_copy
#print axioms Props.C03.C03_ring_literal
#print axioms Props.C03.C03_ring_read
#print axioms Props.C03.C03_lazy_reader_reads_every_legal_chunk_sequence
#print axioms Props.C03.C03_source_translation_complete
#print axioms Props.C03.C03_source_DecodeBit
#print axioms Props.C03.C03_source_DirectDecodeBit
#print axioms Props.C03.C03_source_newRangeDecoder
#print axioms Props.C03.C03_source_code_lt_range
#print axioms Props.C03.C03_source_tree_decoders
#print axioms Props.C03.C03_source_length_and_distance_decoders
#print axioms Props.C03.C03_source_literal_decoder
