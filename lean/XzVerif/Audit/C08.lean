import XzVerif.Props.C08
#print axioms Props.C08.C08_chunks_roundtrip
#print axioms Props.C08.C08_writer_sequences_legal
