import XzVerif.Props.C08
#print axioms Props.C08.C08_chunks_roundtrip
#print axioms Props.C08.C08_flush_prefix_decodes
#print axioms Props.C08.C08_close_decodes
#print axioms Props.C08.C08_no_call_fails
#print axioms Props.C08.C08_first_error_is_limit
#print axioms Props.C08.C08_write_takes_all
#print axioms Props.C08.C08_after_close
#print axioms Props.C08.C08_idle_flush
#print axioms Props.C08.C08_refines
#print axioms Props.C08.C08_hashtable4_never_fails
#print axioms Props.C08.C08_hashtable4_close_decodes
#print axioms Props.C08.C08_hashtable4_flush_prefix_decodes
#print axioms Props.C08.C08_bintree_never_fails
#print axioms Props.C08.C08_bintree_close_decodes
#print axioms Props.C08.C08_bintree_flush_prefix_decodes
#print axioms Props.C08.C08_close_decodes_I
#print axioms Props.C08.C08_writer_sequences_legal
