import XzVerif.Props.C15
#print axioms Props.C15.C15_dashdash
#print axioms Props.C15.C15_plain_operands
#print axioms Props.C15.C15_stdout_only
#print axioms Props.C15.C15_keep
#print axioms Props.C15.C15_no_overwrite_without_force
#print axioms Props.C15.C15_output_never_over_input
#print axioms Props.C15.C15_name_roundtrip
#print axioms Props.C15.C15_txz_tlz_map_to_tar
#print axioms Props.C15.C15_independent
