import XzVerif.Props.C05
#print axioms Props.C05.C05_clean_end_requires_footer_and_full_consumption
#print axioms Props.C05.C05_empty_input_rejected
#print axioms Props.C05.C05_tail_needs_its_bytes
#print axioms Props.C05.C05_block_header_needs_its_bytes
#print axioms Props.C05.C05_decoder_consumes_everything
#print axioms Props.C05.C05_dry_input_is_unexpected_eof
#print axioms Props.C05.C05_lzma2_prefix_rejected
#print axioms Props.C05.C05_lzma2_prefix_output
#print axioms Props.C05.C05_lzma_prefix_rejected_unknown
#print axioms Props.C05.C05_lzma_prefix_rejected_known
#print axioms Props.C05.C05_xz_prefix_rejected
#print axioms Props.C05.C05_xz_chain_cut_only_at_boundaries
#print axioms Props.C05.extract_of_prefix
#print axioms Props.C05.batch_eq
#print axioms Props.C05.C05_lazy_lzma2_prefix_never_clean
#print axioms Props.C05.C05_lazy_xz_prefix_never_clean
