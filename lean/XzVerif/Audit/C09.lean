import XzVerif.Props.C09
#print axioms Props.C09.C09_errflow_ok
#print axioms Props.C09.C09_no_replaced_by_nil
