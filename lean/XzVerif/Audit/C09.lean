import XzVerif.Props.C09
#print axioms Props.C09.C09_errflow_ok
#print axioms Props.C09.C09_no_replaced_by_nil
#print axioms Props.C09.C09_writer2_no_call_panics
#print axioms Props.C09.C09_writer2_no_call_panics_hashtable4
#print axioms Props.C09.C09_writer2_no_call_panics_bintree
#print axioms Props.C09.C09_writer2_failure_surfaces_in_the_same_call
#print axioms Props.C09.C09_writer2_failure_never_masked
#print axioms Props.C09.C09_writer2_stored_error_is_final
#print axioms Props.C09.C09_writer2_success_only_with_valid_stream
#print axioms Props.C09.C09_writer2_success_only_with_valid_stream_hashtable4
#print axioms Props.C09.C09_writer2_no_fault_no_difference
