import XzVerif.Props.C12
#print axioms Props.C12.C12_leading_padding_rejected
#print axioms Props.C12.C12_no_stream_rejected
#print axioms Props.C12.C12_clean_end_consumes_all
#print axioms Props.C12.C12_concatenation
#print axioms Props.C12.C12_single_stream
#print axioms Props.C12.C12_input_preserved
#print axioms Props.C12.C12_lazy_reader_concatenation
#print axioms Props.C12.C12_lazy_single_stream_rejects_trailing
