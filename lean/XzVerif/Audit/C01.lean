import XzVerif.Props.C01
#print axioms Props.C01.C01_segment_roundtrip
#print axioms Props.C01.C01_container_roundtrip
#print axioms Props.C01.C01_op_codec_mirror
#print axioms Props.C01.C01_range_coder_roundtrip
#print axioms Props.C01.C01_tables
#print axioms Props.C01.C01_init_table_ok
