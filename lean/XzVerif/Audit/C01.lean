import XzVerif.Props.C01
#print axioms Props.C01.C01_segment_roundtrip
#print axioms Props.C01.C01_container_roundtrip
#print axioms Props.C01.C01_op_codec_mirror
#print axioms Props.C01.C01_range_coder_roundtrip
#print axioms Props.C01.C01_tables
#print axioms Props.C01.C01_hashtable4_proposals_applicable
#print axioms Props.C01.C01_bintree_proposals_applicable
#print axioms Props.C01.C01_bintree_no_index_panic
#print axioms Props.C01.C01_hashtable4_no_index_panic
#print axioms Props.C01.C01_applicable_is_goOpOk
#print axioms Props.C01.C01_xz_writer_roundtrip
#print axioms Props.C01.C01_xz_writer_roundtrip_hashtable4
#print axioms Props.C01.C01_xz_writer_roundtrip_bintree
#print axioms Props.C01.C01_block_distribution
#print axioms Props.C01.C01_init_table_ok
