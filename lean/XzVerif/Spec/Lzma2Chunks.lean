/-
  Spec.Lzma2Chunks — the chunk-sequencing rules of the LZMA2 format, written from the format
  (xz-file-format / liblzma lzma2_decoder.c semantics): two flags say whether a dictionary
  reset and new properties are still required.  Independent of the Go code.
-/
namespace Spec

inductive ChunkKind where
  | eos   -- 0x00 end of LZMA2 data
  | ud    -- 0x01 uncompressed, dictionary reset
  | u     -- 0x02 uncompressed
  | l     -- 0x80 LZMA, nothing reset
  | lr    -- 0xA0 LZMA, state reset
  | lrn   -- 0xC0 LZMA, state reset, new properties
  | lrnd  -- 0xE0 LZMA, state reset, new properties, dictionary reset
  deriving DecidableEq, Repr, Inhabited

def ChunkKind.all : List ChunkKind := [.eos, .ud, .u, .l, .lr, .lrn, .lrnd]

/-- meaning of the control byte; `none` = invalid (0x03 … 0x7F) -/
def ctrl (b : Nat) : Option ChunkKind :=
  if b = 0 then some .eos
  else if b = 1 then some .ud
  else if b = 2 then some .u
  else if b < 0x80 then none
  else match (b / 32) % 4 with
    | 0 => some .l
    | 1 => some .lr
    | 2 => some .lrn
    | _ => some .lrnd

inductive SeqState where
  | run (needDict needProps : Bool)
  | ended
  deriving DecidableEq, Repr

def SeqState.init : SeqState := .run true true

/-- one chunk header; `none` = the sequence is illegal at this chunk -/
def seqStep : SeqState → ChunkKind → Option SeqState
  | .ended, _ => none
  | .run _ _, .eos => some .ended
  | .run _ _, .ud => some (.run false true)
  | .run _ _, .lrnd => some (.run false false)
  | .run true _, _ => none
  | .run false np, .u => some (.run false np)
  | .run false _, .lrn => some (.run false false)
  | .run false true, .l => none
  | .run false true, .lr => none
  | .run false false, .l => some (.run false false)
  | .run false false, .lr => some (.run false false)

def seqRun : SeqState → List ChunkKind → Option SeqState
  | s, [] => some s
  | s, k :: ks => match seqStep s k with
    | none => none
    | some s' => seqRun s' ks

/-- a sequence of chunk headers is legal iff every chunk is allowed where it stands -/
def legal (ks : List ChunkKind) : Bool := (seqRun .init ks).isSome

/-- index of the first offending chunk, if any -/
def firstIllegal : SeqState → List ChunkKind → Nat → Option Nat
  | _, [], _ => none
  | s, k :: ks, i => match seqStep s k with
    | none => some i
    | some s' => firstIllegal s' ks (i + 1)

end Spec
