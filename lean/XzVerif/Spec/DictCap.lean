/-
  Spec.DictCap — the 41 dictionary sizes representable in the LZMA2 filter property byte of the
  .xz format (xz-file-format §5.3.1): code c < 40 ↦ (2 | (c & 1)) << (c/2 + 11); 40 ↦ 2^32 − 1.
  Written from the format description, independent of the Go code.
-/
namespace Spec

def dictSize (c : Nat) : Nat :=
  if c = 40 then 2 ^ 32 - 1 else (2 + c % 2) * 2 ^ (c / 2 + 11)

/-- the property byte's meaning: codes 0…40 are sizes, everything else is invalid -/
def dictSizeOfByte (b : Nat) : Option Nat :=
  if b ≤ 40 then some (dictSize b) else none

/-- least code whose size is ≥ n, searched linearly from `c` with `fuel` steps left -/
def leastCodeFrom : Nat → Nat → Nat → Nat
  | 0, c, _ => c
  | fuel + 1, c, n => if n ≤ dictSize c then c else leastCodeFrom fuel (c + 1) n

/-- the smallest code whose size covers a capacity `n ≤ 2^32 − 1` -/
def leastCode (n : Nat) : Nat := leastCodeFrom 40 0 n

end Spec
